#!/venv/bin/python
"""More benign whole-tree transformations for false-alarm hunting:  benign.py <src root> <kind>
  aug       x += e  ->  x = x + e   (Name targets only)
  invert    if c: A else: B  ->  if not c: B else: A   (plain if/else without elif)
  reorder   methods of every class and top-level functions of every module in reverse order (imports, constants, classes keep their relative places)
  logging   a LOGGER.debug("...") inserted as first statement of every function in modules that define LOGGER
  ifexp     a if c else b  ->  b if not c else a
  unelse    if c: A(ends in return/raise/continue/break) else: B  ->  if c: A ; B   (guard-clause form)
  ctor      {} -> dict(), [] -> list()   (empty literals only)
  chain     a < b <= c  ->  a < b and b <= c   (when b is a Name, Attribute of a Name, or Constant: no double evaluation of calls)
  noteq     a != b -> not a == b ;  a is not b -> not a is b
  kwargs    positional arguments of calls to package classes with a unique name / self.method calls  ->  keyword arguments
"""
import ast, sys
from pathlib import Path


class Aug(ast.NodeTransformer):
    def visit_AugAssign(self, node):
        self.generic_visit(node)
        if isinstance(node.target, ast.Name) and isinstance(node.op, (ast.Add, ast.Sub, ast.Mult)):
            return ast.copy_location(ast.Assign(targets=[ast.Name(id=node.target.id, ctx=ast.Store())], value=ast.BinOp(left=ast.Name(id=node.target.id, ctx=ast.Load()), op=node.op, right=node.value)), node)
        return node


class Invert(ast.NodeTransformer):
    def visit_If(self, node):
        self.generic_visit(node)
        if node.orelse and not (len(node.orelse) == 1 and isinstance(node.orelse[0], ast.If)):
            return ast.copy_location(ast.If(test=ast.UnaryOp(op=ast.Not(), operand=node.test), body=node.orelse, orelse=node.body), node)
        return node


class IfExp_(ast.NodeTransformer):
    def visit_IfExp(self, node):
        self.generic_visit(node)
        return ast.copy_location(ast.IfExp(test=ast.UnaryOp(op=ast.Not(), operand=node.test), body=node.orelse, orelse=node.body), node)


_TERM = (ast.Return, ast.Raise, ast.Continue, ast.Break)


class Unelse(ast.NodeTransformer):
    def _block(self, stmts):
        out = []
        for st in stmts:
            st = self.visit(st)
            if isinstance(st, ast.If) and st.orelse and st.body and isinstance(st.body[-1], _TERM) and not (len(st.orelse) == 1 and isinstance(st.orelse[0], ast.If)):
                rest, st.orelse = st.orelse, []
                out.append(st)
                out.extend(rest)
            else:
                out.append(st)
        return out

    def generic_visit(self, node):
        for f in ("body", "orelse", "finalbody"):
            v = getattr(node, f, None)
            if isinstance(v, list) and v and isinstance(v[0], ast.stmt):
                setattr(node, f, self._block(v))
        for h in getattr(node, "handlers", []) or []:
            h.body = self._block(h.body)
        return node


class Ctor(ast.NodeTransformer):
    def visit_Dict(self, node):
        self.generic_visit(node)
        if not node.keys:
            return ast.copy_location(ast.Call(func=ast.Name(id="dict", ctx=ast.Load()), args=[], keywords=[]), node)
        return node

    def visit_List(self, node):
        self.generic_visit(node)
        if not node.elts and isinstance(node.ctx, ast.Load):
            return ast.copy_location(ast.Call(func=ast.Name(id="list", ctx=ast.Load()), args=[], keywords=[]), node)
        return node


def _simple(e):
    return isinstance(e, (ast.Name, ast.Constant)) or (isinstance(e, ast.Attribute) and _simple(e.value))


class Chain(ast.NodeTransformer):
    def visit_Compare(self, node):
        self.generic_visit(node)
        if len(node.ops) > 1 and all(_simple(c) for c in node.comparators[:-1]):
            parts, left = [], node.left
            for op, right in zip(node.ops, node.comparators):
                parts.append(ast.Compare(left=left, ops=[op], comparators=[right]))
                left = right
            return ast.copy_location(ast.BoolOp(op=ast.And(), values=parts), node)
        return node


class NotEq(ast.NodeTransformer):
    def visit_Compare(self, node):
        self.generic_visit(node)
        if len(node.ops) == 1 and isinstance(node.ops[0], (ast.NotEq, ast.IsNot)):
            pos = ast.Eq() if isinstance(node.ops[0], ast.NotEq) else ast.Is()
            return ast.copy_location(ast.UnaryOp(op=ast.Not(), operand=ast.Compare(left=node.left, ops=[pos], comparators=node.comparators)), node)
        return node


def _params(fn, skip_self=True):
    a = fn.args
    if a.vararg or a.posonlyargs:
        return None
    names = [x.arg for x in a.args]
    return names[1:] if skip_self and names and names[0] in ("self", "cls") else names


def kwargs_all(trees):
    classes = {}
    for t in trees.values():
        for n in ast.walk(t):
            if isinstance(n, ast.ClassDef):
                classes.setdefault(n.name, []).append(n)
    ctor = {}
    for name, cs in classes.items():
        if len(cs) != 1 or any(d for d in cs[0].decorator_list):
            continue
        inits = [f for f in cs[0].body if isinstance(f, ast.FunctionDef) and f.name == "__init__"]
        if len(inits) == 1 and not inits[0].decorator_list:
            ps = _params(inits[0])
            if ps is not None:
                ctor[name] = ps
    for t in trees.values():
        for cls in [n for n in ast.walk(t) if isinstance(n, ast.ClassDef)]:
            own = {f.name: _params(f) for f in cls.body if isinstance(f, ast.FunctionDef) and not f.decorator_list and f.name.startswith("_" + "_") and not f.name.endswith("_" + "_")}
            for call in [n for n in ast.walk(cls) if isinstance(n, ast.Call)]:
                f = call.func
                if isinstance(f, ast.Attribute) and isinstance(f.value, ast.Name) and f.value.id == "self" and own.get(f.attr):
                    _kw(call, own[f.attr])
        for call in [n for n in ast.walk(t) if isinstance(n, ast.Call)]:
            if isinstance(call.func, ast.Name) and call.func.id in ctor:
                _kw(call, ctor[call.func.id])


def _kw(call, params):
    if any(isinstance(a, ast.Starred) for a in call.args) or len(call.args) > len(params):
        return
    used = {k.arg for k in call.keywords}
    new = []
    for a, p in zip(call.args, params):
        if p in used:
            return
        new.append(ast.keyword(arg=p, value=a))
    call.args = []
    call.keywords = new + call.keywords


def reorder(tree):
    for cls in [n for n in ast.walk(tree) if isinstance(n, ast.ClassDef)]:
        idx = [i for i, st in enumerate(cls.body) if isinstance(st, ast.FunctionDef)]
        fns = [cls.body[i] for i in idx][::-1]
        for i, f in zip(idx, fns):
            cls.body[i] = f
    idx = [i for i, st in enumerate(tree.body) if isinstance(st, ast.FunctionDef)]
    fns = [tree.body[i] for i in idx][::-1]
    for i, f in zip(idx, fns):
        tree.body[i] = f
    return tree


def logging_(tree):
    if not any(isinstance(st, (ast.Assign, ast.AnnAssign)) and "LOGGER" in ast.unparse(st.targets[0] if isinstance(st, ast.Assign) else st.target) for st in tree.body):
        return tree
    for fn in [n for n in ast.walk(tree) if isinstance(n, ast.FunctionDef)]:
        call = ast.Expr(value=ast.Call(func=ast.Attribute(value=ast.Name(id="LOGGER", ctx=ast.Load()), attr="debug", ctx=ast.Load()), args=[ast.Constant(value=f"enter {fn.name}")], keywords=[]))
        pos = 1 if fn.body and isinstance(fn.body[0], ast.Expr) and isinstance(fn.body[0].value, ast.Constant) and isinstance(fn.body[0].value.value, str) else 0
        fn.body.insert(pos, call)
    return tree


root, kind = Path(sys.argv[1]), sys.argv[2]
if kind == "kwargs":
    trees = {p: ast.parse(p.read_text()) for p in sorted(root.rglob("*.py"))}
    kwargs_all(trees)
    for p, tree in trees.items():
        ast.fix_missing_locations(tree)
        p.write_text(ast.unparse(tree) + "\n")
    sys.exit(0)
for p in sorted(root.rglob("*.py")):
    tree = ast.parse(p.read_text())
    tree = {"aug": lambda t: Aug().visit(t), "invert": lambda t: Invert().visit(t), "reorder": reorder, "logging": logging_, "ifexp": lambda t: IfExp_().visit(t), "unelse": lambda t: Unelse().visit(t),
            "ctor": lambda t: Ctor().visit(t), "chain": lambda t: Chain().visit(t), "noteq": lambda t: NotEq().visit(t)}[kind](tree)
    ast.fix_missing_locations(tree)
    p.write_text(ast.unparse(tree) + "\n")

#!/venv/bin/python
"""Benign whole-tree transformation: flips the operands of every binary comparison (a < b -> b > a, a == b -> b == a; not 'in'/'is')
and of every multiplication, then rewrites the files with ast.unparse.  Behaviour is unchanged (comparison operands here have no side effects)."""
import ast, sys
from pathlib import Path

FLIP = {ast.Lt: ast.Gt, ast.Gt: ast.Lt, ast.LtE: ast.GtE, ast.GtE: ast.LtE, ast.Eq: ast.Eq, ast.NotEq: ast.NotEq}


class T(ast.NodeTransformer):
    def __init__(self, mult, cmp):
        self.mult, self.cmp = mult, cmp

    def visit_Compare(self, node):
        self.generic_visit(node)
        if self.cmp and len(node.ops) == 1 and type(node.ops[0]) in FLIP:
            return ast.copy_location(ast.Compare(left=node.comparators[0], ops=[FLIP[type(node.ops[0])]()], comparators=[node.left]), node)
        return node

    def visit_BinOp(self, node):
        self.generic_visit(node)
        if self.mult and isinstance(node.op, ast.Mult) and not isinstance(node.left, (ast.Constant, ast.JoinedStr)) and not isinstance(node.right, (ast.Constant, ast.JoinedStr)):
            return ast.copy_location(ast.BinOp(left=node.right, op=node.op, right=node.left), node)
        return node


root = Path(sys.argv[1])
mult = "--no-mult" not in sys.argv
cmp = "--no-cmp" not in sys.argv
for p in sorted(root.rglob("*.py")):
    tree = T(mult, cmp).visit(ast.parse(p.read_text()))
    ast.fix_missing_locations(tree)
    p.write_text(ast.unparse(tree) + "\n")

#!/venv/bin/python
"""Benign whole-tree transformation for false-alarm hunting: consistently renames every function-local variable (not parameters,
not globals/nonlocals, not names also used as keyword-argument names in the same function) from x to x_r, rewrites the files with ast.unparse.

    alpha_rename.py <src root> [--only module.py,...] [--suffix _r]

Behaviour is unchanged; a check that alarms on the result depends on a local's spelling."""
import ast, sys, symtable
from pathlib import Path


class Renamer(ast.NodeTransformer):
    def __init__(self, suffix):
        self.suffix = suffix
        self.stack = []

    def _locals_of(self, fn):
        params = {a.arg for a in fn.args.args + fn.args.kwonlyargs + fn.args.posonlyargs}
        if fn.args.vararg: params.add(fn.args.vararg.arg)
        if fn.args.kwarg: params.add(fn.args.kwarg.arg)
        stores, globs = set(), set()
        for n in ast.walk(fn):
            if isinstance(n, (ast.FunctionDef, ast.AsyncFunctionDef, ast.Lambda, ast.ClassDef)) and n is not fn:
                continue
            if isinstance(n, ast.Name) and isinstance(n.ctx, (ast.Store, ast.Del)):
                stores.add(n.id)
            if isinstance(n, (ast.Global, ast.Nonlocal)):
                globs |= set(n.names)
            if isinstance(n, ast.ExceptHandler) and n.name:
                stores.add(n.name)
        # nested functions / lambdas / comprehensions referencing the name are handled because we rename every Name node inside fn's subtree
        nested_params = set()
        for n in ast.walk(fn):
            if n is not fn and isinstance(n, (ast.FunctionDef, ast.AsyncFunctionDef, ast.Lambda)):
                nested_params |= {a.arg for a in n.args.args + n.args.kwonlyargs}
        return stores - params - globs - nested_params - {"_"}

    def visit_FunctionDef(self, node):
        names = self._locals_of(node)
        self.stack.append(names)
        self.generic_visit(node)
        self.stack.pop()
        return node

    visit_AsyncFunctionDef = visit_FunctionDef

    def visit_Name(self, node):
        for names in reversed(self.stack):
            if node.id in names:
                node.id = node.id + self.suffix
                break
        return node

    def visit_ExceptHandler(self, node):
        self.generic_visit(node)
        for names in reversed(self.stack):
            if node.name and node.name in names:
                node.name = node.name + self.suffix
                break
        return node


def main():
    root = Path(sys.argv[1])
    only = None
    suffix = "_r"
    for i, a in enumerate(sys.argv):
        if a == "--only": only = set(sys.argv[i + 1].split(","))
        if a == "--suffix": suffix = sys.argv[i + 1]
    for p in sorted(root.rglob("*.py")):
        if only and p.name not in only:
            continue
        src = p.read_text()
        tree = ast.parse(src)
        new = Renamer(suffix).visit(tree)
        ast.fix_missing_locations(new)
        p.write_text(ast.unparse(new) + "\n")


if __name__ == "__main__":
    main()

#!/venv/bin/python
"""Self-test of the checkers, both directions (run by hand; not a registered command).

  selftest/run.py [--only C03,C05] [--id m_c03_earnset] [--jobs 16] [--all-checks]

Every mutant in selftest/mutants/*.py is a (file, old text, new text) edit applied to a scratch copy of
/repo's source tree under $TMPDIR (removed afterwards).  'fire' mutants must make the named property's
check exit 1 (and, when given, mention the expected rule id); 'silent' twins are behaviour-preserving
edits on which the check must stay at exit 0.  With --all-checks every other property's check is run on
the mutant too and must not crash (exit 2).  Results go to selftest/results.json.
"""

from __future__ import annotations

import argparse
import importlib.util
import json
import os
import shutil
import subprocess
import sys
import tempfile
import time
from concurrent.futures import ThreadPoolExecutor
from pathlib import Path

HERE = Path(__file__).resolve().parent
VERIF = HERE.parent
REPO = Path(os.environ.get("VERIF_REPO_BASE", "/repo"))
ALL = [f"C{i:02d}" for i in range(1, 21)]


def load_mutants():
    out = []
    for path in sorted((HERE / "mutants").glob("*.py")):
        spec = importlib.util.spec_from_file_location(path.stem, path)
        mod = importlib.util.module_from_spec(spec)
        spec.loader.exec_module(mod)
        for m in mod.MUTANTS:
            m.setdefault("expect", "fire")
            m.setdefault("src", path.name)
            out.append(m)
    return out


def make_copy(tag: str) -> Path:
    root = Path(tempfile.mkdtemp(prefix=f"rp2-verif-st-{tag}-"))
    shutil.copytree(REPO / "src", root / "src")
    for f in ("setup.cfg", "mypy.ini"):
        if (REPO / f).exists():
            shutil.copy(REPO / f, root / f)
    return root


def implemented() -> list:
    return sorted(p.stem.upper() for p in (VERIF / "sa" / "checks").glob("c[0-9][0-9].py"))


def run_check(pid: str, root: Path, tier: str = "quick"):
    env = dict(os.environ, VERIF_REPO=str(root), VERIF_EVIDENCE_DIR=str(root / "evidence"))
    p = subprocess.run([str(VERIF / "check"), pid, "--tier", tier], capture_output=True, text=True, env=env, timeout=600)
    return p.returncode, p.stdout + p.stderr


def apply_edits(root: Path, edits) -> str:
    for e in edits:
        path = root / e["file"]
        if e.get("create"):
            path.parent.mkdir(parents=True, exist_ok=True)
            path.write_text(e["new"])
            continue
        text = path.read_text()
        count = text.count(e["old"])
        want = e.get("count", 1)
        if count != want and not e.get("all"):
            return f"edit does not apply: {e['file']}: {count} occurrence(s) of {e['old'][:60]!r}, expected {want}"
        text = text.replace(e["old"], e["new"]) if (e.get("all") or want > 1) else text.replace(e["old"], e["new"], 1)
        path.write_text(text)
    return ""


def one(m, all_checks: bool):
    root = make_copy(m["id"][:20])
    try:
        edits = m.get("edits") or [{"file": m["file"], "old": m.get("old", ""), "new": m["new"], "create": m.get("create", False)}]
        err = apply_edits(root, edits)
        if err:
            return dict(id=m["id"], property=m["property"], status="BROKEN-MUTANT", detail=err)
        # still compiles?
        comp = subprocess.run([sys.executable, "-m", "compileall", "-q", str(root / "src")], capture_output=True, text=True)
        if comp.returncode != 0:
            return dict(id=m["id"], property=m["property"], status="BROKEN-MUTANT", detail="does not compile: " + comp.stdout[-300:])
        props = m["property"] if isinstance(m["property"], list) else [m["property"]]
        res = dict(id=m["id"], property=props, expect=m["expect"], status="ok", detail="")
        for pid in props:
            rc, out = run_check(pid, root)
            if m["expect"] == "fire":
                if rc != 1:
                    res["status"] = "MISSED" if rc == 0 else "ERROR"
                    res["detail"] += f"{pid}: exit {rc}; " + (out[-400:] if rc == 2 else "")
                elif m.get("rule") and m["rule"] not in out:
                    res["status"] = "WRONG-RULE"
                    res["detail"] += f"{pid}: fired but not {m['rule']}: " + "|".join(l.strip() for l in out.splitlines() if "VIOLATED" in l)[:300]
            elif m["expect"] == "error":
                # verdict must be withheld (exit 2), or a violation reported; never a silent pass
                if rc == 0:
                    res["status"] = "SILENT-PASS"
                    res["detail"] += f"{pid}: exit 0 on a tree the analyser cannot interpret; "
            else:
                if rc != 0:
                    res["status"] = "FALSE-ALARM" if rc == 1 else "ERROR"
                    res["detail"] += f"{pid}: exit {rc}: " + "|".join(l.strip() for l in out.splitlines() if "VIOLATED" in l or "ANALYSIS-ERROR" in l or "Error" in l)[:500]
        if all_checks:
            others = {}
            for pid in implemented():
                if pid in props:
                    continue
                rc, out = run_check(pid, root)
                if rc != 0:
                    others[pid] = rc
            res["others_nonzero"] = others
            if any(v == 2 for v in others.values()) and m["expect"] != "error":
                res["status"] = res["status"] if res["status"] != "ok" else "OTHER-ERROR"
        return res
    finally:
        shutil.rmtree(root, ignore_errors=True)


def main() -> int:
    ap = argparse.ArgumentParser()
    ap.add_argument("--only", default="")
    ap.add_argument("--id", default="")
    ap.add_argument("--jobs", type=int, default=16)
    ap.add_argument("--all-checks", action="store_true")
    args = ap.parse_args()
    muts = load_mutants()
    if args.only:
        want = set(args.only.upper().split(","))
        muts = [m for m in muts if want & set(m["property"] if isinstance(m["property"], list) else [m["property"]])]
    if args.id:
        muts = [m for m in muts if args.id in m["id"]]
    impl = set(implemented())
    muts = [m for m in muts if set(m["property"] if isinstance(m["property"], list) else [m["property"]]) <= impl]
    t0 = time.time()
    with ThreadPoolExecutor(max_workers=args.jobs) as ex:
        results = list(ex.map(lambda m: one(m, args.all_checks), muts))
    bad = [r for r in results if r["status"] != "ok"]
    for r in results:
        print(f"{r['status']:<14} {r['id']:<44} {r.get('expect', ''):<7} {r['detail'][:260]}")
        if r.get("others_nonzero"):
            print(f"{'':<14}   other checks non-zero: {r['others_nonzero']}")
    print(f"{len(results)} mutants/twins, {len(bad)} not as expected, {time.time() - t0:.1f}s")
    if not args.only and not args.id:
        (HERE / "results.json").write_text(json.dumps(results, indent=1))
    return 1 if bad else 0


if __name__ == "__main__":
    sys.exit(main())

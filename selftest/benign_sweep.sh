#!/bin/sh
# Whole-tree benign transformations (behaviour unchanged) must leave every check at exit 0:  selftest/benign_sweep.sh
# Each transformation is applied to a scratch copy of /repo/src under $TMPDIR (removed afterwards).
status=0
for kinds in "alpha" "flip" "aug" "invert" "logging" "ifexp" "unelse" "ctor" "chain" "noteq" "alpha flip aug invert" "alpha flip aug invert ifexp unelse ctor chain noteq" "invert unelse" "flip invert unelse" "alpha invert unelse" "aug invert unelse"; do
  root=$(mktemp -d /tmp/rp2-verif-benign-XXXXXX)
  cp -r /repo/src "$root/src"; cp /repo/setup.cfg "$root/"
  for k in $kinds; do
    case $k in
      alpha) /venv/bin/python /verif/selftest/tools/alpha_rename.py "$root/src/rp2" ;;
      flip) /venv/bin/python /verif/selftest/tools/flip_ops.py "$root/src/rp2" ;;
      *) /venv/bin/python /verif/selftest/tools/benign.py "$root/src/rp2" "$k" ;;
    esac
  done
  bad=""
  for i in 01 02 03 04 05 06 07 08 09 10 11 12 13 14 15 16 17 18 19 20; do
    VERIF_REPO=$root VERIF_EVIDENCE_DIR=$root/evidence /verif/check C$i >/dev/null 2>&1 || bad="$bad C$i"
  done
  echo "[$kinds]: ${bad:-all 20 checks silent}"
  [ -n "$bad" ] && status=1
  rm -rf "$root"
done
exit $status
